#!/venv/bin/python
"""Confirm seeded changes and store them under /verif/seeded/<PROP>-<n>/.

For each candidate directory (patch.diff [+ patch.ported.diff], demo.py, meta.json) it uses a scratch git worktree of
/repo's HEAD (outside /repo and /verif, removed afterwards) and checks, itself:
  1. the patch applies and the package still imports;   2. the 403 baseline tests still pass with it;
  3. the demonstration FAILS with it;                   4. the demonstration PASSES without it;
  5. which registered checks (run with --root <worktree>) report a violation.
usage: confirm_seeds.py <candidates-root> [PROP/n ...]     (default: every */[0-9] under the root, e.g. /tmp/mut/out_C05/1)
"""
import concurrent.futures as cf
import json
import os
import shutil
import subprocess
import sys
import tempfile
from pathlib import Path

V = Path(__file__).resolve().parent.parent
SEEDED = V / "seeded"
# later waves of candidates are numbered after the earlier ones: --offset 3 stores out_C05/1 as seeded/C05-4
OFFSET = int(next((a.split("=", 1)[1] for a in sys.argv if a.startswith("--offset=")), "0"))


def sh(cmd, cwd=None, env=None, timeout=900):
    try:
        p = subprocess.run(cmd, cwd=cwd, env=env, capture_output=True, text=True, timeout=timeout)
        return p.returncode, (p.stdout + p.stderr)
    except subprocess.TimeoutExpired as e:
        return 124, f"timeout: {e}"


def one(cand: Path) -> dict:
    prop = cand.parent.name.replace("out_", "")
    n = str(int(cand.name) + OFFSET)
    sid = f"{prop}-{n}"
    res = {"id": sid, "dir": str(cand)}
    wt = Path(tempfile.mkdtemp(prefix=f"seed_{sid}_", dir=os.environ.get("TMPDIR", "/tmp")))
    shutil.rmtree(wt)
    try:
        rc, out = sh(["git", "-C", "/repo", "worktree", "add", "-q", "--detach", str(wt), "HEAD"])
        if rc != 0:
            res["error"] = "worktree: " + out[-300:]
            return res
        patch = cand / "patch.ported.diff" if (cand / "patch.ported.diff").exists() else cand / "patch.diff"
        res["patch"] = patch.name
        env = dict(os.environ, PYTHONPATH=str(wt), PYTHONDONTWRITEBYTECODE="1")
        # 4. pristine demo
        rc0, out0 = sh(["/venv/bin/python", str(cand / "demo.py")], cwd="/", env=env, timeout=600)
        res["demo_pristine_rc"] = rc0
        rc, out = sh(["git", "-C", str(wt), "apply", str(patch)])
        if rc != 0:
            res["error"] = "patch does not apply: " + out[-300:]
            return res
        rc, out = sh(["/venv/bin/python", "-c", "import openapi_python_client, sys; print(openapi_python_client.__file__)"], cwd=str(wt), env=env)
        res["imports_from"] = out.strip()[-120:]
        # 2. baseline
        rc, out = sh([str(V / "tools" / "run_baseline.py"), str(wt)], timeout=900)
        res["baseline_rc"] = rc
        res["baseline"] = out.strip().splitlines()[0] if out.strip() else ""
        # 3. demo on mutant
        rc1, out1 = sh(["/venv/bin/python", str(cand / "demo.py")], cwd="/", env=env, timeout=600)
        res["demo_mutant_rc"] = rc1
        res["demo_mutant_tail"] = out1.strip()[-300:]
        # 5. checks
        caught = []
        errors = []
        rc, out = sh([str(V / "check"), "ALL", "--root", str(wt)], cwd=str(V), env=dict(os.environ, VERIF_NO_EVIDENCE="1", VERIF_SCRATCH_DIR=str(wt)), timeout=900)
        cur: list[str] = []
        for line in out.splitlines():
            if line.startswith("  R") or "ANALYSIS-ERROR" in line:
                cur.append(line.strip())
            if line.startswith("RESULT "):
                _, p, rcs = line.split()
                if rcs == "rc=1":
                    caught.append({"property": p, "findings": [x for x in cur if x.startswith("R")][:6]})
                elif rcs == "rc=2":
                    errors.append({"property": p, "error": [x for x in cur if "ANALYSIS-ERROR" in x][:1]})
                cur = []
        if not any(l.startswith("RESULT ") for l in out.splitlines()):
            errors.append({"property": "ALL", "error": [out.strip()[-200:]]})
        res["caught_by"] = caught
        res["analysis_errors"] = errors
        res["confirmed"] = rc0 == 0 and rc1 != 0 and res["baseline_rc"] == 0
        return res
    finally:
        sh(["git", "-C", "/repo", "worktree", "remove", "--force", str(wt)])
        shutil.rmtree(wt, ignore_errors=True)


def main() -> int:
    argv = [a for a in sys.argv[1:] if not a.startswith("--")]
    root = Path(argv[0])
    wanted = argv[1:]
    cands = sorted(p for p in root.glob("out_*/[0-9]") if p.is_dir())
    if wanted:
        cands = [c for c in cands if f"{c.parent.name.replace('out_', '')}/{c.name}" in wanted]
    results = []
    with cf.ThreadPoolExecutor(max_workers=6) as ex:
        for r in ex.map(one, cands):
            results.append(r)
            own = r["id"].split("-")[0]
            cb = [c["property"] for c in r.get("caught_by", [])]
            print(f"{r['id']}: confirmed={r.get('confirmed')} baseline={r.get('baseline_rc')} demo(pristine,mutant)=({r.get('demo_pristine_rc')},"
                  f"{r.get('demo_mutant_rc')}) caught_by={cb} own={'yes' if own in cb else 'NO'} {r.get('error', '')} errs={[e['property'] for e in r.get('analysis_errors', [])]}",
                  flush=True)
            if r.get("confirmed"):
                dst = SEEDED / r["id"]
                dst.mkdir(parents=True, exist_ok=True)
                cand = Path(r["dir"])
                shutil.copy(cand / r["patch"], dst / "patch.diff")
                if r["patch"] != "patch.diff":
                    shutil.copy(cand / "patch.diff", dst / "patch.original.diff")
                shutil.copy(cand / "demo.py", dst / "demo.py")
                meta = json.loads((cand / "meta.json").read_text()) if (cand / "meta.json").exists() else {}
                head = subprocess.run(["git", "-C", "/repo", "log", "--format=%h", "-1"], capture_output=True, text=True).stdout.strip()
                meta_out = {
                    "property": own, "title": meta.get("title"), "files": meta.get("files"), "mechanism": meta.get("mechanism"),
                    "needs": meta.get("needs"), "author": "independent sub-agent given only the property text and a scratch worktree",
                    "ported": r["patch"] != "patch.diff",
                    "confirmed_by_me": {
                        "repo_head": head,
                        "ran": ["git apply patch.diff (scratch worktree of /repo HEAD)", "tools/run_baseline.py <worktree>",
                                "PYTHONPATH=<worktree> /venv/bin/python demo.py (with and without the patch)",
                                "./check <P> --root <worktree> for every registered property"],
                        "baseline_rc": r["baseline_rc"], "baseline": r.get("baseline"), "demo_pristine_rc": r["demo_pristine_rc"],
                        "demo_mutant_rc": r["demo_mutant_rc"], "demo_mutant_tail": r.get("demo_mutant_tail", "")[-200:],
                    },
                    "caught_by": r.get("caught_by", []),
                }
                (dst / "meta.json").write_text(json.dumps(meta_out, indent=1))
    summary = []
    for d in sorted(SEEDED.iterdir()):
        if (d / "meta.json").exists():
            m = json.loads((d / "meta.json").read_text())
            summary.append({"id": d.name, "property": m["property"], "title": m.get("title"), "confirmed": True,
                            "caught_by": [c["property"] for c in m.get("caught_by", [])]})
    (SEEDED / "SUMMARY.json").write_text(json.dumps(summary, indent=1))
    return 0


if __name__ == "__main__":
    sys.exit(main())
