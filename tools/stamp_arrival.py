#!/venv/bin/python
"""Maintenance helper: record the verdict at arrival (before anybody working on a checker saw the change) for newly stored seeds.
usage: stamp_arrival.py <wave> <seed-id> ...   - copies meta.caught_by to meta.caught_by_at_arrival (once) and sets meta.wave"""
import json
import sys
from pathlib import Path

V = Path(__file__).resolve().parent.parent
wave = int(sys.argv[1])
for sid in sys.argv[2:]:
    p = V / "seeded" / sid / "meta.json"
    m = json.loads(p.read_text())
    if "caught_by_at_arrival" not in m:
        m["caught_by_at_arrival"] = m.get("caught_by", [])
    m["wave"] = wave
    p.write_text(json.dumps(m, indent=1))
    print(sid, [c["property"] for c in m["caught_by_at_arrival"]])
