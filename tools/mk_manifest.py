#!/venv/bin/python
"""Regenerates /verif/MANIFEST.json from the table below (single source of truth) and validates it."""
import json
import sys
from pathlib import Path

V = Path(__file__).resolve().parent.parent
sys.path.insert(0, str(V))

TRUST = ("Python's `ast` and jinja2's own parser for the templates; the lexical rules of Python/TOML as encoded in "
         "sa/lexstate.py; the label transfer functions of sa/absint.py; CPython's tables for isidentifier/regex classes/"
         "case mappings (E6); the frozen idiom tables printed in evidence; user config is not hostile.")

CLAIMED = {
    "C05": dict(
        technique="static taint/context analysis: abstract interpretation of Python + Jinja templates (provenance labels x lexical context of the generated language at every interpolation site)",
        text="For-all over documents: every interpolation site (output expression or fragment hole) of every template is "
             "enumerated with the lexical state of the generated language and the provenance labels of the text that can reach "
             "it; a site is discharged iff the context admits every label. Also: adequacy of the escaping primitive per "
             "context (R05.2), python_code built-not-pasted (R05.3), no double escaping (R05.4), sanitiser alphabets over all "
             "code points (R05.5). Genuine defects of the pinned tree are listed per sink in known_findings.json.",
        ref="DESIGN.md §4 C05"),
    "C09": dict(
        technique="abstract interpretation of the naming pipeline over code-point sets (all of Unicode) + label analysis of identifier-typed fields + CFG dominance rules on the uniqueness registries; keyword-safety of every identifier-position token per filter (E6); package directory named by package_name under every truth assignment",
        text="(a) validity for ALL strings: every return path of PythonIdentifier/ClassName and every enum member-name store "
             "is interpreted over bitsets of all 0x110000 code points (first in ID_Start, rest in ID_Continue, non-empty, not "
             "reserved) - a proof or a witness character per path; (b) identifier-typed fields and template name positions "
             "only receive constructor results; (c) uniqueness scopes: every keyed registry store is dominated by a membership "
             "test on the same key leading to a diagnostic, renames force a re-check, success returns are dominated by the "
             "parameter loop. Not decided: that disambiguation succeeds whenever it could.",
        ref="DESIGN.md §4 C09"),
    "C18": dict(
        technique="def-use analysis on the template flow graph (skeleton event streams per generated scope) x producibility of fixed names by the naming pipeline; hole-versus-hole collisions between derived names; python_name never in data, wire name never in code; reserved-name tests on the identifier inside the repeated pass; identifier comparison dominates every store into the model's property mapping",
        text="For every generated scope (class body, each def, nested defs) of model.py.jinja and endpoint_module.py.jinja the "
             "templates are unrolled (branches in sequence, loops twice, macros inlined per dispatch candidate) into BIND/READ "
             "events of template-written identifiers and of document-name holes with their affixes; a fixed name that a hole "
             "can produce (reserved list evaluated from the AST, snake-case fixed points, per-root name languages) must collide "
             "harmlessly. The set of fixed names is read from the templates on every run, so a template edit that introduces an "
             "unprotected name is reported; 47 genuine captures of the pinned tree are listed by (scope, name, kind, site), each "
             "reproduced dynamically once (findings/repro_c18.py).",
        ref="DESIGN.md §4 C18"),
    "C06": dict(
        technique="exception-escape analysis over the call graph with try/handler matching, may-raise tables on document-derived operands (labels and narrowed types from the abstract interpreter), template dispatch totality, five ranking arguments for every loop and recursive cycle on the labelled CFG, abstract evaluation of the exit-status decision, regex ambiguity analysis; None-rejecting operations on optional document-derived values; fixed-position accesses into document-sized sequences; tree-versus-graph provenance for structural recursion (YAML loader output needs a visited set)",
        text="Absence over all paths: every explicit raise is a recognised protocol or caught on every call path from the entry "
             "points; every raising library call applied to document-derived operands sits in a try that catches what it raises; "
             "callbacks that run inside pydantic validation raise only what pydantic wraps; untrusted Any is not returned as a "
             "container unchecked; every dynamic template dispatch is total (or guarded); each of the 4 while loops and 8 "
             "recursive cycles matches a ranking pattern; exit status / no-write-on-rejection by dominance. Not decided: "
             "exceptions and hangs inside third-party code, RecursionError on pathologically deep documents.",
        ref="DESIGN.md §4 C06"),
    "C12": dict(
        technique="typed enumeration of every order-observation of a set (Python via abstract-interpreter types, Jinja via the template interpreter) + structural rules for the permutation clause; effect analysis of traversals of sets (followed into callees, generators as unordered iterables); hash() / id() as environment sources; loops over document maps must not read back state they fill",
        text="Hash-seed clause decided for all documents: every place where the order of a set-typed value is observed is "
             "enumerated from the typed program and must be sorted, a proven singleton, an order-insensitive keyed update, or a "
             "frozen diagnostics-only case; environment-dependent sources are enumerated (none). Permutation clause only through "
             "necessary conditions: sorted aggregates, per-round error reset of the three worklists, separator-anchored suffix "
             "tests on references, monotone updates of shared classes. Not decided: invariance under permutation as such.",
        ref="DESIGN.md §4 C12"),
    "C19": dict(
        technique="effect analysis: every filesystem / process effect site with its path as string structure rooted (through aliases) in an output directory, sanitiser alphabets from E6, dominance by the existing-directory decision and by an exclusive creation, control dependence of writes on filesystem observations (post-dominators); value flow of --output-path / --overwrite into every Config; project_dir / package_dir placement evaluated per truth assignment; the run itself independent of filesystem observations",
        text="For all documents and names: each of the 25 effect sites has a path of the shape <project_dir|package_dir>/"
             "(literal | sanitised component)*, and E6 proves over all code points that the sanitisers cannot emit a path "
             "separator, NUL, or a leading dot; no effect precedes the existing-directory decision (dominance on Project.build), "
             "the --overwrite flag reaches Config unmodified, models/ and api/ are removed on every path before being rebuilt, "
             "document-dependent file names occur only under them. Not decided: file-system races, cross-flavour histories.",
        ref="DESIGN.md §4 C19"),
    "C10": dict(
        technique="generated decode / encode text per valuation of the template conditions, run abstractly on the UNSET path; path enumeration of the type-string builders over their boolean atoms; requiredness forwarded on every path to a non-error return; both declarations combined by the merge; generated decoders run on the 'present' path (only the sentinel test may select UNSET)",
        text="Structural clauses, each a necessary condition: all 5 get_type_string implementations mention Unset exactly when "
             "`not no_optional and not required` (all paths, 4 combinations each); to_string's default matrix; every transform/"
             "construct macro (27) handles Unset only on the optional arm and only by isinstance; a guard is skipped only under "
             "property.required; unconditional key writes imply required; optional pops carry UNSET; union None short-circuit; "
             "handle_nullable exhaustive; query filter by identity with UNSET/None; null extraction by identity in both enum "
             "builders. Not decided: run-time attribute values.",
        ref="DESIGN.md §4 C10"),
    "C14": dict(
        technique="per-class facts of the enum builders and the merge dispatcher (helpers inlined, constant records and loops unrolled, every property class simulated as the other argument), generated decode / encode code read per valuation (closed decode, const check raises on every path, transforms write the value), enum writes to the document keep or select; union decoder never swallows the rejection of a closed member; the decoding call reaches every present value (path simulation of the generated decoder)",
        text="Structural clauses: EnumProperty.build == LiteralEnumProperty.build modulo class name and values representation; "
             "null extraction by identity; every member-name store dominated by a duplicate test on the stored key that leads to "
             "a diagnostic; decode closed (Enum(value), check function with raising fall-through, const comparison), encode "
             ".value/identity; member values reach the class with a single escaping. Not decided: Enum(value) itself.",
        ref="DESIGN.md §4 C14"),
    "C13": dict(
        technique="path-sensitive walker (named decisions, class sets, generators, helpers walked in place) over the 14 builders and convert_value implementations: every path converts the declared default and hands it on, accept paths store converted values, defaults are given when the object is made; determinants of a default (fields convert_value reads) versus copies that replace them; folds walked as loops; union members asked in declared order",
        text="Structural clauses: every builder passes its default through convert_value, returns a PropertyError before "
             "construction/registration and stores the converted value; typed convert_value implementations reject by default, "
             "accept only under type/membership tests, exclude bool where int is accepted; the const check compares converted "
             "Value objects; python_code is built not pasted (16 construction sites); the $ref route converts whenever a wrapper "
             "exists (guard truth table) and errors before evolve; the allOf merge converts with the merged class (def-use). Not "
             "decided: value equality of the evaluated default.",
        ref="DESIGN.md §4 C13"),
    "C15": dict(
        technique="symbolic execution of merge_properties and its helpers over truth assignments of the isinstance atoms (constants folded, helpers specialised per constant), alias classes across closures / returns for the allOf loops, dominance of stores by the python-name comparison, CFG reachability of the allOf move under type shapes; determinants of a default versus narrowing copies; one list of enum values per class name; parent-processed test evaluated concretely for None / empty / non-empty lists",
        text="Structural clauses: each type-pair branch has its mirror with the same (more specific) base; enum narrowing "
             "compares (name, value) pairs in both directions; fall-through is an error; requiredness is a disjunction; inline "
             "members' required/properties are collected on every path; required_set reaches every property (insertion or final "
             "partition, on a copy); inherited property objects are never mutated; re-queue and separator-anchored self-reference "
             "test. Not decided: round trip of composed instances.",
        ref="DESIGN.md §4 C15"),
    "C07": dict(
        technique="error-discipline rules over the typed program: every per-item loop (or the loop a comprehension / generator abbreviates) records an error or keeps the item on every path; keyed registries tested before stored, judged at the call sites of helpers; accumulators returned entire; the document parsed is the document loaded; per-round versus final error lists by path; errors handed out are fresh objects; copies of diagnostic carriers keep the list whole",
        text="Accounting clauses over all paths: no error-typed value is discarded (58 call sites); in the 8 loops over document "
             "collections each of the 19 skips is preceded by an error record in the same iteration or is one of 5 frozen benign "
             "cases; diagnostics name METHOD+path / reference; registry collisions lead to diagnostics (3 module-file scopes are "
             "known findings); the tag list of an operation is provably non-empty; error lists are concatenated up to the CLI; "
             "method list = Operation fields of PathItem. Not decided: the census itself.",
        ref="DESIGN.md §4 C07"),
    "C08": dict(
        technique="who-may-write analysis on the threaded registries and on handed-over property objects (reaching definitions, helper summaries, frozen role table), CFG dominance for dependency recording, def-use of the threaded state, accumulators returned entire, output directories rebuilt from empty; abstract interpretation of the item loops that thread a registry, with a greatest-fixpoint summary 'clean on error' of every state-threading function (a rejected item leaves nothing behind); monotone round progress; error stores only poured on; picks out of possibly empty collections in templates guarded (truth tables over guard atoms)",
        text="Containment mechanisms only: add_dependencies dominates every successful reference resolution and roots are forwarded "
             "to every recursive build; removal visits recorded dependants; the threaded state is rebound only from results of "
             "steps that received it (42 assignments, 32 error returns); no return/break inside the 17 per-item loops; the "
             "registry stores a fresh set. Not decided: byte equality of two output trees.",
        ref="DESIGN.md §4 C08"),
    "C20": dict(
        technique="def-use rules on the three resolvers followed through helpers and generators, attribute-copy completeness, scenario walking for lookup misses, discriminator decided by key presence (truth table), descent parameters handed on, in-place registry writes, termination of reference cycles; value flow of ReferenceOr positions through the document model's validators (members not inspected before references are resolved); document objects read-only for builders",
        text="Resolver convergence only: the reference branches rebind just the resolved variable; the chain loop tests the current "
             "link; parameter_from_data copies what add_parameters reads; every .ref read (13) is validated / chain-guarded / "
             "diagnostic text; the validator rejects every non-fragment URL component; misses return errors; a schema reference "
             "evolves only use-site attributes; the dependency registry does not alias. Not decided: equality of generated code.",
        ref="DESIGN.md §4 C20"),
    "C16": dict(
        technique="symbolic execution with helper inlining: each CLI option reaches its Config field as itself, each option is read only by its documented readers (typed receivers), media types are classified through the override table keyed by the document's spelling, the two enum classes selected by literal_enums agree on exported macros and locations; overrides keyed by the generated class name (value flow into the lookup key); Content-Type written whatever the body's classification (truth table); configuration file decoded as written",
        text="Effect-scope clauses: the 17 Config fields are copied unmodified from ConfigFile/CLI (defaults only under `is None`); "
             "all 65 reads of Config fields in Python and templates are inside the function/template documented for the option and "
             "no option is unread; all 17 writes pass the configured encoding; all 25 name-constructor sites pass field_prefix "
             "(2 frozen constants); media types are classified only on get_content_type's result while the raw key is what is "
             "emitted; tags keep document order and tags[:1] applies iff generate_all_tags is off. Not decided: two-run equalities.",
        ref="DESIGN.md §4 C16"),
    "C02": dict(
        technique="writer/reader agreement over the generated text of every kind's macros (assembled per valuation of the template conditions), orientation analysis of union member order, who-may-write frame on document objects, producer/consumer agreement of the own-import test; the working copy of the source is only popped; walks of two document sequences in step have one origin or compared lengths",
        text="Only structural clauses that are necessary for the round trip; the behaviour (equality of run-time values) is NOT "
             "decided. Decided: to_dict writers and the from_dict reader use the same wire-key expression in a string context over "
             "the same property domain; every kind whose Python type differs from its JSON type defines both construct and "
             "transform and converts; containers delegate both directions; additional properties merged first and the remainder "
             "kept; field_dict is a fresh dict; absence recognised by isinstance only; inherited property objects not mutated.",
        ref="DESIGN.md §4 C02"),
    "C03": dict(
        technique="role-based value flow over regions (function + helpers + generators + closures): parameter identity includes the location, wire name and location travel with the schema; generated-code rules on the parsed skeleton of the client classes; truth tables over Jinja guards with integer-modelled lengths; header values through the str transform; a request does not depend on earlier calls (no statement changes the client's state); query parameter stored once per path",
        text="Structural clauses; the bytes sent are NOT decided. Decided: wire names are keys inside string literals and python "
             "names the values; placeholders rewritten and formatted over one collection; every use of headers/cookies/params is "
             "emitted only where its definition is (9 uses, integer-modelled guards); BodyType = body_to_kwarg branches = httpx "
             "keywords; Content-Type is the document's own key; optional arguments guarded; every non-str kind allowed in headers "
             "converts (8 kinds); sync/async equal modulo async/await; security wiring; parameter identity = (name, location).",
        ref="DESIGN.md §4 C03"),
    "C04": dict(
        technique="scenario-driven path walking (sa/rules/scenario.py: feasible paths under 'content is empty', 'HTTPStatus raises', ...) with provenance of source and schema, generated response dispatch read per valuation and parsed as Python, truth table on the union guard, predicate-atom tables of the media-type classifier; reachability-based process-state analysis (no write outlives a call unless keyed by everything the value depends on); symbolic walk of the union decoder over abstract member lists",
        text="Structural clauses: one status test per parsed response and every branch returns; the raise-or-None tail is emitted "
             "unconditionally; the media-type table equals the one in the property statement and each source pairs accessor with "
             "type; construct-or-cast selection; a union member's bare TypeError implies last-and-nothing-can-follow (truth table); "
             "_build_response forwards all four fields; variants' .parsed; status parsing contained; reference resolution rebinds "
             "only `data`. Not decided: decoding of values.",
        ref="DESIGN.md §4 C04"),
    "C01": dict(
        technique="import-closure analysis over texts-with-holes (abstract evaluation of get_imports / type strings per requiredness and host), abstract run of model.py.jinja with macros / includes / captured blocks expanded (lazy imports first, declaration order by truth table), lexical neutrality of template blocks, FIRST/FOLLOW sets of code-context holes (keyword gluing), argument-forwarding along the schema descent, E6 on leading underscores; rendering of every generated parameter list for 0 / 1 / 2 elements per collection (positional part, bare star); def-use of template-written names in generated functions (skeleton events); conservation of import lines between get_imports and the printing loop; sibling-module imports named by the derivation of the written file",
        text="Necessary conditions only (compiling/importing every output is NOT decided): 64 import-closure obligations (16 kinds x "
             "required/optional x model/endpoint host); check_ helper named by one method at definition/import/use; lazy imports "
             "first in every model function that can use a model class at run time; quoted evaluated annotations; declaration "
             "order by truth table; every template block lexically neutral and every rendered template ends in CODE; dispatch "
             "totality; leading-underscore inputs never yield leading-underscore names (E6, all code points).",
        ref="DESIGN.md §4 C01"),
}

NOT_APPLICABLE = {
    "C11": "the object of the property is mypy's verdict on a generated package, which does not exist until templates are "
           "rendered; rendering (concretely or symbolically) is execution, outside the static-analysis family (DESIGN.md §5)",
    "C17": "2-safety relation between runs on two different but equivalent documents; equality of normal forms is a "
           "statement about run-time values that no structural rule closes (DESIGN.md §5)",
}

PENDING_REASON = "check not built yet in this session (in progress; see DESIGN.md §4 for the planned rules)"


def main() -> int:
    props = [json.loads(l) for l in (V / "properties.jsonl").read_text().splitlines() if l.strip()]
    checks = []
    na = []
    import ast as _ast

    def level_text(pid: str) -> str | None:
        """the LEVEL constant of the property's rule module (what the check itself says it decides), read without importing it"""
        f = V / "sa" / "rules" / f"{pid.lower()}.py"
        if not f.exists():
            return None
        for n in _ast.parse(f.read_text()).body:
            if isinstance(n, _ast.Assign) and any(isinstance(t, _ast.Name) and t.id == "LEVEL" for t in n.targets):
                try:
                    return _ast.literal_eval(n.value)
                except Exception:  # noqa: BLE001
                    return None
        return None

    for p in props:
        pid = p["id"]
        if pid in CLAIMED:
            c = dict(CLAIMED[pid])
            lt = level_text(pid)
            if lt:
                # the text is what the rule module states (kept next to the rules so that it cannot drift); instance counts are in the
                # evidence file of each run, the rules as implemented in DESIGN.md section 9
                c["text"] = lt[0].upper() + lt[1:] + " Genuine defects of the pinned tree are listed per construct in known_findings.json."
                c["ref"] = c["ref"] + " and §9"
            checks.append({
                "property_id": pid,
                "quick_cmd": f"./check {pid} --tier quick",
                "thorough_cmd": f"./check {pid} --tier thorough",
                "evidence_file": f"/verif/evidence/{pid}.json",
                "replay_cmd_template": f"./check {pid} --replay {{path}}",
                "engine": "sa",
                "level_claimed": {"category": "other", "text": c["text"], "design_ref": c["ref"]},
                "level_note": TRUST,
                "technique": c["technique"],
            })
        else:
            na.append({"property_id": pid, "reason": NOT_APPLICABLE.get(pid, PENDING_REASON)})
    man = {
        "version": 1,
        "setup_cmd": "/venv/bin/python -c \"import ast, jinja2; print('sa: stdlib ast + jinja2 parser present')\"",
        "hooks": {
            "guard": "OPENAPI_PYTHON_CLIENT_VERIF",
            "enable": "no hooks: the checks read the sources under /repo and execute nothing of them",
            "baseline_off_cmd": "cd /repo && /venv/bin/python -m pytest -ra -q -p no:cacheprovider --timeout=900 --continue-on-collection-errors",
            "source_commits": [],
            "add_only": True,
        },
        "engines": [{
            "name": "sa", "path": "/verif/sa",
            "serves_properties": [c["property_id"] for c in checks],
            "kind_free_text": "repository-specific static analysis: resolved Python program (ast), Jinja templates as code "
                              "(jinja2 parser), abstract interpretation over provenance labels / types / string structure, "
                              "lexical state machines of the generated languages, character-set abstract interpretation of "
                              "the naming pipeline, statement CFGs",
        }],
        "checks": checks,
        "not_applicable": na,
        "notes": "Static analysis only. exit 0 ok / 1 VIOLATION / 2 ANALYSIS-ERROR (never a violation). Known findings: "
                 "/verif/known_findings.json. `fix:` commits in /repo are recorded there under 'fixed'.",
    }
    (V / "MANIFEST.json").write_text(json.dumps(man, indent=1) + "\n")
    try:
        sys.path.insert(0, "/opt/veriftools/pyvenv/lib/python3.11/site-packages")
        import jsonschema  # type: ignore

        jsonschema.validate(man, json.loads(Path("/root/.vp/MANIFEST.schema.json").read_text()))
        print("MANIFEST valid;", len(checks), "claimed;", len(na), "not claimed")
    except ImportError:
        print("jsonschema not importable here; written without validation")
    return 0


if __name__ == "__main__":
    sys.exit(main())
