#!/venv/bin/python
"""Maintenance helper (never run by a check): prepares a held-out round - one scratch git worktree of /repo HEAD and one prompt per
property (property-breaking changes) and per area of the code base (behaviour-preserving refactorings).  The prompts contain the text of
the property / the area and the titles of what earlier rounds did; nothing of the checkers.
usage: mk_round.py <N> [seeds] [refactors]     -> /tmp/r<N>/<PROP>/{wt,out,prompt.md}   /tmp/f<N>/<AREA>/{wt,out,prompt.md}"""
import glob
import json
import os
import subprocess
import sys
from pathlib import Path

V = Path(__file__).resolve().parent.parent
N = sys.argv[1]
what = sys.argv[2:] or ["seeds", "refactors"]
TESTS = ("`cd {d}/wt && PYTHONPATH={d}/wt /venv/bin/python -m pytest -q -p no:cacheprovider --timeout=900 tests end_to_end_tests` - on the pristine "
         "tree this gives 403 passed plus a fixed set of failures / errors in end_to_end_tests/test_end_to_end.py (golden records: `ruff` is not "
         "on PATH, the snapshot fixture is missing); the set of passing and failing tests must be identical with your change")
COMMON = ("Work ONLY inside `{d}/`. Do not read or touch `/repo`, `/verif` or any other directory under `/tmp/r{N}` / `/tmp/f{N}`.\n"
          "Never use `git stash` (the stash is shared between all worktrees of this repository); to compare with the pristine tree use `git diff`,\n"
          "`git checkout -- .` or a copy. There is no network. Use `/venv/bin/python` (the project is importable from your worktree with `PYTHONPATH={d}/wt`).")


def worktree(d: str) -> None:
    os.makedirs(d + "/out", exist_ok=True)
    if not os.path.exists(d + "/wt"):
        subprocess.check_call(["git", "-C", "/repo", "worktree", "add", "-q", "--detach", d + "/wt", "HEAD"])


if "seeds" in what:
    props = [json.loads(l) for l in open(V / "properties.jsonl")]
    na = {e["property_id"] for e in json.loads((V / "MANIFEST.json").read_text())["not_applicable"]}
    for p in props:
        pid = p["id"]
        if pid in na:
            continue
        d = f"/tmp/r{N}/{pid}"
        worktree(d)
        titles = [json.load(open(m)).get("title", "") for m in sorted(glob.glob(str(V / "seeded" / f"{pid}-*" / "meta.json")))]
        txt = f"""# Task: write two property-breaking changes to openapi-python-client

You have your own scratch git worktree of the project at `{d}/wt` (a checkout of openapi-generators/openapi-python-client:
the Python package `openapi_python_client/` with its Jinja templates under `openapi_python_client/templates/`, and the tests).
{COMMON.format(d=d, N=N)}

## The property

```json
{json.dumps(p, indent=1)}
```

## What I want

TWO different, realistic changes to the project's source (Python or templates; not tests) that each BREAK this property, while:
* the package still imports, and the existing test suite still passes with the change:
  {TESTS.format(d=d)};
* the change looks like something a maintainer could plausibly commit (a refactoring gone subtly wrong, a "simplification",
  a performance shortcut, a new feature with a slip, a wrong fix) - not sabotage, no dead giveaway comments;
* the breakage needs **something specific to manifest**: a particular unusual input document, a multi-step sequence of
  operations, two cooperating sites that each look fine alone, a particular ordering, a particular configuration. NOT
  something ordinary use would expose at once;
* the two changes are in different mechanisms / layers (e.g. one in a template, one in the parser; or the document model
  under `openapi_python_client/schema/`, the project builder in `openapi_python_client/__init__.py`, `utils.py`, `config.py`, `cli.py`).

Changes already made by others for this property (do something ELSE, preferably another mechanism and another file):
""" + "\n".join(f"* {t}" for t in titles) + f"""

## Deliverables, for each change n in 1, 2: directory `{d}/out/<n>/` containing

* `patch.diff` - `git diff` of the worktree against HEAD for that change alone (each patch must apply on a pristine
  checkout on its own: reset the worktree with `git -C {d}/wt checkout -- .` between the two);
* `demo.py` - a self-contained script run as `PYTHONPATH=<a checkout> /venv/bin/python demo.py` from any directory. It must
  import the package from PYTHONPATH (no hard-coded paths into your worktree), build its own input document(s) in a
  temporary directory, exercise the generator (and, where the property is about generated clients, import/execute the
  generated code in a subprocess or via importlib from the temp dir; a fake httpx transport such as `httpx.MockTransport` is fine),
  and **exit 0 when the property holds, non-zero when it is violated**. It must exit 0 on the pristine checkout and
  non-zero with your patch. Print what was observed. Clean up temporary files.
* `meta.json` - {{"property": "{pid}", "title": "<one line>", "files": [...], "mechanism": "<what the change does and why it breaks the property>",
  "needs": "<what specific input / sequence / configuration is needed for it to manifest>"}}

Verify all of it yourself before finishing (tests as above with each patch; demo exits 0 on pristine, non-zero with the patch).
Leave the worktree clean (`git -C {d}/wt checkout -- .`) when you are done. Your final message: one short paragraph per change.
"""
        open(d + "/prompt.md", "w").write(txt)
    print("seed prompts under", f"/tmp/r{N}")

AREAS = {
    "A": ("endpoint parsing", "openapi_python_client/parser/openapi.py, parser/bodies.py, parser/responses.py, parser/errors.py"),
    "B": ("schema / allOf / reference handling", "openapi_python_client/parser/properties/__init__.py, schemas.py, model_property.py, merge_properties.py"),
    "C": ("the property kinds", "openapi_python_client/parser/properties/{protocol,enum_property,literal_enum_property,union,list_property,const,int,float,string,date,datetime,uuid,file,boolean,none,any}.py"),
    "D": ("endpoint and client templates", "openapi_python_client/templates/endpoint_module.py.jinja, endpoint_macros.py.jinja, client.py.jinja, pyproject.toml.jinja, setup.py.jinja, *_init.py.jinja"),
    "E": ("model and property templates", "openapi_python_client/templates/model.py.jinja, property_templates/*.jinja, helpers.jinja, str_enum/int_enum/literal_enum.py.jinja, models_init.py.jinja"),
    "F": ("project builder, CLI, config, naming utilities, document model", "openapi_python_client/__init__.py, cli.py, config.py, utils.py, schema/ (the pydantic document model)"),
}
if "refactors" in what:
    for a, (area, files) in AREAS.items():
        d = f"/tmp/f{N}/{a}"
        worktree(d)
        titles = [json.load(open(m)).get("title", "") for m in sorted(glob.glob(str(V / "refactors" / f"{a}-*" / "meta.json")))]
        txt = f"""# Task: four behaviour-preserving refactorings of openapi-python-client ({area})

You have your own scratch git worktree of the project at `{d}/wt` (openapi-generators/openapi-python-client: the Python package
`openapi_python_client/` with its Jinja templates under `openapi_python_client/templates/`, and the tests).
{COMMON.format(d=d, N=N)}

Your area: **{area}** - {files}.

## What I want

FOUR different, realistic, **strictly behaviour-preserving** refactorings in your area - the kind of clean-up a maintainer
would commit: same generated output byte for byte, same diagnostics (text, order, level), same exceptions, same files written,
for every input document and configuration. Each should be substantial (restructure a function or macro, 15-80 changed lines),
not cosmetic renaming or re-formatting, and type-clean under the project's own mypy configuration (`/venv/bin/python -m mypy openapi_python_client`
gives only the two missing-stub errors of the pristine tree). Mix the kinds of transformation: e.g. extract / inline helpers or macros, invert conditions,
early returns vs nested ifs, loops vs comprehensions / generators, dispatch tables vs if-chains, splitting a function into phases,
moving a computation to a method or property, NamedTuple / dataclass records instead of parallel locals, `match` statements,
itertools / functools helpers, set-blocks / call-blocks / includes / loop filters / inline conditionals / template inheritance in templates, whitespace control.

Refactorings already done by others in this area (do something ELSE: other functions/macros, other kinds of transformation):
""" + "\n".join(f"* {t}" for t in titles) + f"""

## Evidence you must produce yourself

* The existing tests: {TESTS.format(d=d)}.
* Byte-for-byte comparison: generate clients (through `openapi_python_client.generate(config=...)` with `ConfigFile(post_hooks=[])`, or the
  `_get_project_for_url_or_path` + `Project.build()` API) from `end_to_end_tests/baseline_openapi_3.0.json`, `baseline_openapi_3.1.yaml`,
  `end_to_end_tests/3.1_specific.openapi.yaml`, the `literal_enums` config variant, and from at least four documents of your own that
  exercise the code you touched (including documents that produce warnings/errors), with the pristine tree and with each refactoring; the
  output trees and the printed diagnostics must be identical. Keep the comparison script as `{d}/out/compare.py`.

## Deliverables, for each refactoring n in 1..4: directory `{d}/out/<n>/` containing

* `patch.diff` - `git diff` of the worktree against HEAD for that refactoring alone (each patch must apply on a pristine checkout
  on its own: reset with `git -C {d}/wt checkout -- . && git -C {d}/wt clean -fdq openapi_python_client` between them);
* `meta.json` - {{"area": "{a}", "title": "<one line>", "files": [...], "what": "<what was restructured>", "why_equivalent": "<argument>"}}

Leave the worktree clean when you are done. Final message: one short paragraph per refactoring.
"""
        open(d + "/prompt.md", "w").write(txt)
    print("refactoring prompts under", f"/tmp/f{N}")
