#!/venv/bin/python
"""Maintenance helper (never run by a check): after a `fix:` commit in /repo, stored patches (seeded/*/patch.diff, refactors/*/patch.diff)
that touch the repaired lines stop applying.  For each such patch this tries a three-way application in a scratch git worktree of
/repo HEAD (the patch's base blobs are in the repository); when that succeeds without conflicts the result becomes
patch.diff and the author's patch is kept as patch.original.diff (the convention of tools/confirm_seeds.py).  Nothing is ported by hand here: a patch that
conflicts is listed and left alone.
usage: port_patches.py [seeded|refactors ...]"""
import subprocess
import sys
import tempfile
from pathlib import Path

V = Path(__file__).resolve().parent.parent


def sh(cmd: list[str], cwd: "str | None" = None) -> tuple[int, str]:
    p = subprocess.run(cmd, cwd=cwd, capture_output=True, text=True)
    return p.returncode, p.stdout + p.stderr


def main() -> int:
    kinds = [a for a in sys.argv[1:] if not a.startswith("-")] or ["seeded", "refactors"]
    wt = tempfile.mkdtemp(prefix="port_")
    Path(wt).rmdir()
    rc, out = sh(["git", "-C", "/repo", "worktree", "add", "-q", "--detach", wt, "HEAD"])
    if rc:
        print(out)
        return 2
    try:
        for kind in kinds:
            for d in sorted((V / kind).iterdir()):
                pf = d / "patch.diff"
                if not pf.exists():
                    continue
                rc, _ = sh(["git", "apply", "--check", str(pf)], cwd=wt)
                if rc == 0:
                    continue
                src = d / "patch.original.diff" if (d / "patch.original.diff").exists() else d / "patch.diff"
                rc, out = sh(["git", "apply", "--3way", str(src)], cwd=wt)
                conflicted = rc != 0 or "with conflicts" in out or bool(sh(["git", "diff", "--name-only", "--diff-filter=U"], cwd=wt)[1].strip())
                if conflicted:
                    print(f"{kind}/{d.name}: does not apply to HEAD and cannot be ported automatically")
                else:
                    _, diff = sh(["git", "diff", "HEAD"], cwd=wt)
                    if not (d / "patch.original.diff").exists():
                        (d / "patch.original.diff").write_text((d / "patch.diff").read_text())
                    (d / "patch.diff").write_text(diff)
                    print(f"{kind}/{d.name}: ported (three-way); the author's patch is kept as patch.original.diff")
                sh(["git", "reset", "-q", "--hard", "HEAD"], cwd=wt)
                sh(["git", "clean", "-fdq"], cwd=wt)
    finally:
        sh(["git", "-C", "/repo", "worktree", "remove", "--force", wt])
    return 0


if __name__ == "__main__":
    sys.exit(main())
