import sys, importlib
sys.path.insert(0, str(__import__("pathlib").Path(__file__).resolve().parent.parent))
from sa.context import Ctx
from sa.core import Report
prop=sys.argv[1]; root=sys.argv[2] if len(sys.argv)>2 else '/repo'
ctx=Ctx(root)
mod=importlib.import_module(f"sa.rules.{prop.lower()}")
rep=Report(prop,'quick',root)
try:
    mod.run(rep,ctx)
except Exception as e:
    print("ERR",e)
for o in rep.obligations: print(o.rule, o.construct, o.ok)
