#!/venv/bin/python
"""Run the pinned test suite of a checkout of openapi-python-client and compare with /root/.vp/BASELINE.json.

usage: run_baseline.py [<repo-root>]      (default /repo)

Exit 0 iff every test of BASELINE.stable_pass passed. Not part of any registered check (checks never run tests);
used only to validate `fix:` commits and seeded changes.
"""
import json
import os
import subprocess
import sys
import tempfile
import xml.etree.ElementTree as ET


def main() -> int:
    root = os.path.abspath(sys.argv[1]) if len(sys.argv) > 1 else "/repo"
    base = json.load(open("/root/.vp/BASELINE.json"))
    stable = set(base["stable_pass"])
    with tempfile.TemporaryDirectory() as td:
        junit = os.path.join(td, "r.xml")
        env = dict(os.environ, PYTHONPATH=root, PYTHONDONTWRITEBYTECODE="1")
        cmd = [
            "/venv/bin/python", "-m", "pytest", "-ra", "-q", "-p", "no:cacheprovider", "--timeout=900",
            "--continue-on-collection-errors", f"--junitxml={junit}",
        ]
        p = subprocess.run(cmd, cwd=root, env=env, capture_output=True, text=True)
        passed, failed = set(), set()
        try:
            tree = ET.parse(junit).getroot()
        except Exception as e:  # noqa: BLE001
            print("no junit produced:", e)
            print(p.stdout[-3000:])
            return 2
        for tc in tree.iter("testcase"):
            tid = (tc.get("classname") or "") + "::" + (tc.get("name") or "")
            if tc.find("failure") is not None or tc.find("error") is not None:
                failed.add(tid)
            elif tc.find("skipped") is not None:
                pass
            else:
                passed.add(tid)
        passed -= failed
    missing = sorted(stable - passed)
    print(f"baseline stable_pass={len(stable)} passed_now={len(passed)} stable_missing={len(missing)}")
    for m in missing[:40]:
        print("  MISSING", m)
    if missing:
        print(p.stdout[-4000:])
    return 0 if not missing else 1


if __name__ == "__main__":
    sys.exit(main())
