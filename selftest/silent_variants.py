#!/venv/bin/python
"""Must-stay-silent variants: behaviour-preserving edits of a scratch copy of /repo on which every check must give the
same verdict (exit 0, the same KNOWN-FINDING lines) as on the pinned tree.

usage: silent_variants.py [variant ...]      prints one line per variant; exit 1 if any verdict differs.
Scratch copies live under $TMPDIR and are removed immediately.
"""
from __future__ import annotations

import ast
import os
import random
import re
import shutil
import subprocess
import sys
import tempfile
from pathlib import Path

V = Path(__file__).resolve().parent.parent
REPO = Path(os.environ.get("VERIF_REPO_ROOT", "/repo"))
PKG = "openapi_python_client"


def copy_repo() -> Path:
    d = Path(tempfile.mkdtemp(prefix="silent_", dir=os.environ.get("TMPDIR", "/tmp")))
    shutil.copytree(REPO / PKG, d / PKG, ignore=shutil.ignore_patterns("__pycache__"))
    return d


def py_files(root: Path) -> list[Path]:
    return [p for p in (root / PKG).rglob("*.py") if "templates" not in p.parts]


def v_unparse(root: Path) -> None:
    """S1: every module rewritten by ast.unparse (layout, quotes, comments, line numbers all change)"""
    for p in py_files(root):
        src = p.read_text()
        p.write_text(ast.unparse(ast.parse(src)) + "\n")


def v_template_comments(root: Path) -> None:
    """S2: a Jinja comment line at the top of every template and after every macro definition (line numbers shift)"""
    for p in (root / PKG / "templates").rglob("*.jinja"):
        src = p.read_text()
        src = "{# reviewed #}\n" + src if not src.startswith("{%- ") else src
        p.write_text(src)


def v_ruff_format(root: Path) -> None:
    """S6: ruff format with a different line length"""
    ruff = shutil.which("ruff") or "/venv/bin/ruff"
    subprocess.run([ruff, "format", "--line-length", "88", "-q", str(root / PKG)], capture_output=True)


def v_reorder_methods(root: Path) -> None:
    """S4: methods of every class sorted by name (attributes keep their place), module-level functions of parser modules reversed"""
    for p in py_files(root):
        if "schema" in p.parts:
            continue
        tree = ast.parse(p.read_text())
        changed = False
        for n in ast.walk(tree):
            if isinstance(n, ast.ClassDef):
                idx = [i for i, s in enumerate(n.body) if isinstance(s, (ast.FunctionDef, ast.AsyncFunctionDef))]
                meths = sorted((n.body[i] for i in idx), key=lambda m: m.name)
                # overloads must stay adjacent and before the implementation: skip classes that use @overload
                if any("overload" in ast.unparse(d) for m in meths for d in m.decorator_list):
                    continue
                for i, m in zip(idx, meths):
                    n.body[i] = m
                changed = changed or bool(idx)
        if changed:
            p.write_text(ast.unparse(tree) + "\n")


RENAMES = {
    # function suffix -> {old local: new local}: alpha-renaming of locals that no rule should depend on
    "parser/openapi.py": {"param_or_error": "resolved_param", "new_schemas": "schemas_after", "detail_suffix": "suffix_text",
                          "clean_path": "flat_path", "body_errors": "failed_bodies"},
    "parser/properties/__init__.py": {"string_format": "fmt", "sub_data": "composed", "schemas_or_err": "step_result"},
    "parser/properties/model_property.py": {"name_conflict": "clash", "merged_prop": "combined", "prop_or_error": "built",
                                            "class_string": "class_text", "unprocessed_props": "pending_props"},
    "parser/properties/enum_property.py": {"inverse_values": "by_value", "checked_default": "default_value"},
    "parser/bodies.py": {"media_type_schema": "mt_schema", "simplified_content_type": "normalised_type", "prefix_type_names": "prefix_names"},
    "parser/responses.py": {"resp_data": "component", "schema_data": "payload_schema"},
    "__init__.py": {"package_loader": "pkg_loader", "command_exists": "found_cmd", "yaml_bytes": "raw_bytes"},
    "utils.py": {"capitalized_words": "cap_words", "parsed_content_type": "bare_type"},
}


def v_rename_locals(root: Path) -> None:
    """S3: alpha-renaming of local variables"""
    for rel, ren in RENAMES.items():
        p = root / PKG / rel
        src = p.read_text()
        for old, new in ren.items():
            src = re.sub(rf"\b{old}\b", new, src)
        p.write_text(src)


def v_rename_all_locals(root: Path) -> None:
    """S3b: every local variable (not parameters, not attributes) of every function gets the suffix _v"""
    for p in py_files(root):
        if "schema" in p.parts:
            continue
        tree = ast.parse(p.read_text())
        funcs = [n for n in tree.body if isinstance(n, (ast.FunctionDef, ast.AsyncFunctionDef))]
        for c in [n for n in tree.body if isinstance(n, ast.ClassDef)]:
            funcs += [n for n in c.body if isinstance(n, (ast.FunctionDef, ast.AsyncFunctionDef))]
        for f in funcs:
            params = set()
            globs = set()
            for n in ast.walk(f):
                if isinstance(n, (ast.FunctionDef, ast.AsyncFunctionDef, ast.Lambda)):
                    a = n.args
                    params |= {x.arg for x in [*a.posonlyargs, *a.args, *a.kwonlyargs]}
                    if a.vararg:
                        params.add(a.vararg.arg)
                    if a.kwarg:
                        params.add(a.kwarg.arg)
                if isinstance(n, (ast.Global,)):
                    globs |= set(n.names)
            nested = {n.name for n in ast.walk(f) if isinstance(n, (ast.FunctionDef, ast.AsyncFunctionDef)) and n is not f}
            imported = {(a.asname or a.name).split(".")[0] for n in ast.walk(f) if isinstance(n, (ast.Import, ast.ImportFrom)) for a in n.names}
            loc = {n.id for n in ast.walk(f) if isinstance(n, ast.Name) and isinstance(n.ctx, ast.Store)} - params - globs - nested - imported
            for n in ast.walk(f):
                if isinstance(n, ast.Name) and n.id in loc:
                    n.id = n.id + "_v"
                if isinstance(n, ast.Nonlocal):
                    n.names = [x + "_v" if x in loc else x for x in n.names]
        p.write_text(ast.unparse(tree) + "\n")


def v_rename_template_locals(root: Path) -> None:
    """S7: every Jinja variable that a template itself binds with `{% set x %}` or as a `{% for x in %}` target (and that is not a
    macro parameter, an imported name or a namespace attribute in the same file) gets the suffix _t, consistently within the file.
    The source is reproduced from jinja2's own token stream, so only `name` tokens change."""
    import jinja2
    from jinja2 import nodes

    # default whitespace options: the token stream then reproduces the file exactly (lstrip_blocks would drop indentation)
    env = jinja2.Environment(extensions=["jinja2.ext.loopcontrols"], keep_trailing_newline=True)
    tdir = root / PKG / "templates"
    for p in sorted(tdir.rglob("*.jinja")):
        src = p.read_text()
        tree = env.parse(src)
        bound: set[str] = set()
        for n in tree.find_all((nodes.Assign, nodes.AssignBlock)):
            if isinstance(n.target, nodes.Name):
                bound.add(n.target.name)
        for n in tree.find_all(nodes.For):
            for t in ([n.target] if isinstance(n.target, nodes.Name) else list(n.target.find_all(nodes.Name))):
                bound.add(t.name)
        keep: set[str] = {"loop", "ns", "self", "caller", "varargs", "kwargs"}
        for m in tree.find_all(nodes.Macro):
            keep |= {a.name for a in m.args}
            keep.add(m.name)
        for n in tree.find_all(nodes.FromImport):
            keep |= {(x[1] if isinstance(x, tuple) else x) for x in n.names}
        for n in tree.find_all(nodes.Import):
            keep.add(n.target)
        # names a called macro of ANOTHER file may read from the caller are not an issue: macros do not see the caller's locals
        ren = bound - keep
        if not ren:
            continue
        toks = list(env.lex(src))
        out = []
        sig = [i for i, t in enumerate(toks) if t[1] not in ("whitespace",)]
        pos = {i: k for k, i in enumerate(sig)}
        for i, (ln, typ, val) in enumerate(toks):
            if typ == "name" and val in ren:
                k = pos[i]
                prev = toks[sig[k - 1]] if k > 0 else (0, "", "")
                nxt = toks[sig[k + 1]] if k + 1 < len(sig) else (0, "", "")
                is_attr = prev[1] == "operator" and prev[2] == "."
                is_kwarg = nxt[1] == "operator" and nxt[2] == "=" and not (prev[1] == "name" and prev[2] == "set")
                if not is_attr and not is_kwarg:
                    val = val + "_t"
            out.append(val)
        new_src = "".join(out)
        env.parse(new_src)
        p.write_text(new_src)


def v_docstrings_and_blank_lines(root: Path) -> None:
    """S5: extra blank lines and comments between statements of every function"""
    for p in py_files(root):
        out = []
        for line in p.read_text().splitlines():
            out.append(line)
            if line.strip().startswith(("return ", "continue", "if ", "for ")) and random.Random(len(line)).random() < 0.3:
                out.append(line[: len(line) - len(line.lstrip())] + "# noqa: reviewed")
        p.write_text("\n".join(out) + "\n")


VARIANTS = {
    "unparse": v_unparse, "template-comments": v_template_comments, "ruff-format-88": v_ruff_format,
    "reorder-methods": v_reorder_methods, "rename-locals": v_rename_locals, "rename-all-locals": v_rename_all_locals,
    "comments": v_docstrings_and_blank_lines, "rename-template-locals": v_rename_template_locals,
}


# engine statistics that are not obligations (work done by the fixpoint, not what was decided)
VOLATILE = ("resolved_calls", "unresolved_calls", "python_rounds")


def _short_diff(a: str | None, b: str | None) -> str:
    ta, tb = (a or "").split(" "), (b or "").split(" ")
    return " | ".join(f"{x} -> {y}" for x, y in zip(ta, tb) if x != y)[:300] or f"{a} -> {b}"[:300]


def verdict(root: Path) -> tuple[dict[str, str], list[str]]:
    p = subprocess.run([str(V / "check"), "ALL", "--root", str(root)], capture_output=True, text=True, cwd=str(V),
                       env=dict(os.environ, VERIF_NO_EVIDENCE="1", **({"VERIF_SCRATCH_DIR": str(root)} if root != REPO else {})))
    res = {}
    known = []
    for line in p.stdout.splitlines():
        if line.startswith("RESULT "):
            _, prop, rc = line.split()
            res[prop] = rc + res.get(prop, "")
        m = re.match(r"\[(C\d+)\] tier=\w+ (obligations=\d+ discharged=\d+ known=\d+) .*?indexed=(\{.*\}) wall", line)
        if m:
            # the same obligations must be generated and discharged: a rule that silently loses its instances is as wrong as one that fires
            import json as _json

            idx = _json.loads(m.group(3))
            for k in VOLATILE:
                idx.pop(k, None)
            res[m.group(1)] = res.get(m.group(1), "") + " " + m.group(2) + " " + _json.dumps(idx, sort_keys=True)
        if line.startswith("KNOWN-FINDING:"):
            known.append(line.split(" :: ")[0])
    return res, sorted(known), p.stdout


def main() -> int:
    want = sys.argv[1:] or list(VARIANTS)
    base_res, base_known, _ = verdict(REPO)
    bad = 0
    for name in want:
        root = copy_repo()
        try:
            VARIANTS[name](root)
            # the variant must still be importable Python
            for p in py_files(root):
                ast.parse(p.read_text())
            res, known, out = verdict(root)
            same = res == base_res and known == base_known
            diffs = {k: _short_diff(base_res.get(k), res.get(k)) for k in set(res) | set(base_res) if res.get(k) != base_res.get(k)}
            kd = sorted(set(known) ^ set(base_known))
            print(f"{'SILENT' if same else 'DIFFERS'} variant={name} result_diffs={diffs} known_diffs={kd[:4]}")
            if not same:
                bad += 1
                for line in out.splitlines():
                    if line.startswith(("  R", "ANALYSIS-ERROR")):
                        print("     ", line.strip()[:220])
        finally:
            shutil.rmtree(root, ignore_errors=True)
    return 1 if bad else 0


if __name__ == "__main__":
    sys.exit(main())
