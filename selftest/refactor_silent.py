#!/venv/bin/python
"""Must-stay-silent on real refactorings: every behaviour-preserving refactoring under /verif/refactors/<id>/patch.diff is applied to a
scratch copy of /repo's package and the given checks (default: all) must give the same exit code and the same KNOWN-FINDING lines as
on /repo itself.  Instance counts may move (a refactoring adds and removes functions and sites); they are printed with --counts.

usage: refactor_silent.py [PROP ...] [--only ID[,ID...]] [--counts] [--verbose]     exit 1 if any refactoring changes a verdict.
Scratch copies live under $TMPDIR and are removed immediately; /repo is never touched.
"""
from __future__ import annotations

import concurrent.futures as cf
import os
import shutil
import subprocess
import sys
import tempfile
from pathlib import Path

V = Path(__file__).resolve().parent.parent
REPO = Path(os.environ.get("VERIF_REPO_ROOT", "/repo"))
PKG = "openapi_python_client"
sys.path.insert(0, str(V / "selftest"))
from thorough import signature  # noqa: E402


def run(props: list[str], root: Path) -> dict[str, tuple[int, dict, list[str]]]:
    env = dict(os.environ, VERIF_NO_EVIDENCE="1")
    if root != REPO:
        env["VERIF_SCRATCH_DIR"] = str(root)
    out: dict[str, tuple[int, dict, list[str]]] = {}
    if not props:
        p = subprocess.run([str(V / "check"), "ALL", "--root", str(root)], capture_output=True, text=True, cwd=str(V), env=env)
        cur: list[str] = []
        chunk: list[str] = []
        for line in p.stdout.splitlines():
            chunk.append(line)
            if line.startswith("  R") or line.startswith("ANALYSIS-ERROR"):
                cur.append(line.strip()[:220])
            if line.startswith("RESULT "):
                _, pr, rcs = line.split()
                out[pr] = (int(rcs.split("=")[1]), signature("\n".join(chunk), pr), cur)
                cur, chunk = [], []
        return out
    for pr in props:
        p = subprocess.run([str(V / "check"), pr, "--root", str(root)], capture_output=True, text=True, cwd=str(V), env=env)
        rep = [l.strip()[:220] for l in p.stdout.splitlines() if l.startswith("  R") or l.startswith("ANALYSIS-ERROR")]
        out[pr] = (p.returncode, signature(p.stdout, pr), rep)
    return out


def one(ref: Path, props: list[str], base: dict) -> tuple[str, list[str], list[str]]:
    d = Path(tempfile.mkdtemp(prefix=f"refs_{ref.name}_", dir=os.environ.get("TMPDIR", "/tmp")))
    try:
        shutil.copytree(REPO / PKG, d / PKG, ignore=shutil.ignore_patterns("__pycache__"))
        p = subprocess.run(["git", "apply", "--include", f"{PKG}/*", str(ref / "patch.diff")], cwd=d, capture_output=True, text=True)
        if p.returncode != 0:
            return ref.name, [f"PATCH-FAILED {p.stderr.strip()[-160:]}"], []
        got = run(props, d)
        bad, notes = [], []
        for pr, (rc, sig, rep) in sorted(got.items()):
            brc, bsig, _ = base[pr]
            if rc != brc or sig.get("known") != bsig.get("known"):
                bad.append(f"{pr}: rc {brc}->{rc}" + ("; known findings differ" if sig.get("known") != bsig.get("known") else ""))
                bad += [f"    {x}" for x in rep[:8]]
            elif (sig.get("obligations"), sig.get("indexed")) != (bsig.get("obligations"), bsig.get("indexed")):
                notes.append(f"{pr}: obligations {bsig.get('obligations')}->{sig.get('obligations')}")
        if "--update-meta" in sys.argv and not props:
            # record the verdict of this evaluation (all properties): the thorough tier treats it as the expectation and reports only
            # regressions; DESIGN.md's table is generated from it
            import json

            mp = ref / "meta.json"
            meta = json.loads(mp.read_text()) if mp.exists() else {}
            differs = sorted({b.split(":")[0] for b in bad if not b.startswith("    ")})
            meta["differs_for"] = differs
            meta["verdict"] = ("SILENT (same exit codes and known findings for all 18 properties)" if not differs else
                               "DIFFERS for " + ", ".join(differs) + ": " + " / ".join(x.strip() for x in bad)[:900])
            mp.write_text(json.dumps(meta, indent=1))
        return ref.name, bad, notes
    finally:
        shutil.rmtree(d, ignore_errors=True)


def main() -> int:
    args = sys.argv[1:]
    only: set[str] = set()
    if "--only" in args:
        i = args.index("--only")
        only = set(args[i + 1].split(","))
        del args[i:i + 2]
    props = [a.upper() for a in args if not a.startswith("--")]
    refs = sorted(p for p in (V / "refactors").iterdir() if (p / "patch.diff").exists() and (not only or p.name in only))
    base = run(props, REPO)
    nbad = 0
    with cf.ThreadPoolExecutor(max_workers=int(os.environ.get("VERIF_JOBS", "8"))) as ex:
        for name, bad, notes in ex.map(lambda r: one(r, props, base), refs):
            print(f"{'DIFFERS' if bad else 'SILENT':<8} refactoring={name}" + (f"  ({'; '.join(notes)})" if notes and "--counts" in sys.argv else ""), flush=True)
            for b in bad:
                print("        ", b)
            nbad += 1 if bad else 0
    print(f"refactorings={len(refs)} not_silent={nbad}")
    return 1 if nbad else 0


if __name__ == "__main__":
    sys.exit(main())
