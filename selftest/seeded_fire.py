#!/venv/bin/python
"""Must-fire self-test: every confirmed seeded change under /verif/seeded/<id>/ applied to a scratch copy of /repo's package
must make the check of its own property exit 1 (a VIOLATION), not 0 and not 2.

usage: seeded_fire.py [PROP ...] [--all-checks]   one line per seed; exit 1 if any seed is missed.
Scratch copies live under $TMPDIR and are removed immediately; /repo is never touched.
"""
from __future__ import annotations

import concurrent.futures as cf
import json
import os
import shutil
import subprocess
import sys
import tempfile
from pathlib import Path

V = Path(__file__).resolve().parent.parent
REPO = Path(os.environ.get("VERIF_REPO_ROOT", "/repo"))
PKG = "openapi_python_client"


def one(seed: Path, all_checks: bool) -> tuple[str, str, list[str]]:
    meta = json.loads((seed / "meta.json").read_text())
    prop = meta["property"]
    d = Path(tempfile.mkdtemp(prefix=f"fire_{seed.name}_", dir=os.environ.get("TMPDIR", "/tmp")))
    try:
        shutil.copytree(REPO / PKG, d / PKG, ignore=shutil.ignore_patterns("__pycache__"))
        p = subprocess.run(["git", "apply", "--include", f"{PKG}/*", str(seed / "patch.diff")], cwd=d, capture_output=True, text=True)
        if p.returncode != 0:
            return seed.name, "PATCH-FAILED", [p.stderr.strip()[-200:]]
        target = "ALL" if all_checks else prop
        p = subprocess.run([str(V / "check"), target, "--root", str(d)], capture_output=True, text=True, cwd=str(V),
                           env=dict(os.environ, VERIF_NO_EVIDENCE="1", VERIF_SCRATCH_DIR=str(d)))
        rules = [l.strip()[:150] for l in p.stdout.splitlines() if l.startswith("  R")]
        if all_checks:
            rcs = {l.split()[1]: l.split()[2] for l in p.stdout.splitlines() if l.startswith("RESULT ")}
            if "--update-meta" in sys.argv:
                caught, cur = [], []
                for l in p.stdout.splitlines():
                    if l.startswith("  R"):
                        cur.append(l.strip())
                    if l.startswith("RESULT "):
                        if l.split()[2] == "rc=1":
                            caught.append({"property": l.split()[1], "findings": cur[:6]})
                        cur = []
                meta["caught_by"] = caught
                (seed / "meta.json").write_text(json.dumps(meta, indent=1))
            rc = rcs.get(prop, "rc=?")
            others = sorted(k for k, v in rcs.items() if v == "rc=1" and k != prop)
            errs = sorted(k for k, v in rcs.items() if v == "rc=2")
            return seed.name, ("FIRED" if rc == "rc=1" else f"MISSED({rc})") + (f" also={others}" if others else "") + (f" ERR={errs}" if errs else ""), rules
        return seed.name, "FIRED" if p.returncode == 1 else f"MISSED(rc={p.returncode})", rules if p.returncode == 1 else [p.stdout.strip()[-300:]]
    finally:
        shutil.rmtree(d, ignore_errors=True)


def main() -> int:
    args = [a for a in sys.argv[1:] if not a.startswith("--")]
    all_checks = "--all-checks" in sys.argv
    verbose = "--verbose" in sys.argv
    seeds = sorted(p for p in (V / "seeded").iterdir() if (p / "meta.json").exists() and (not args or p.name.split("-")[0] in args))
    bad = 0
    with cf.ThreadPoolExecutor(max_workers=int(os.environ.get("VERIF_JOBS", "8"))) as ex:
        for name, status, rules in ex.map(lambda s: one(s, all_checks), seeds):
            print(f"{status:<12} seed={name} {rules[0] if rules and (verbose or not status.startswith('FIRED')) else ''}", flush=True)
            if verbose:
                for r in rules[1:6]:
                    print(" " * 24, r)
            if not status.startswith("FIRED"):
                bad += 1
    print(f"seeds={len(seeds)} missed={bad}")
    return 1 if bad else 0


if __name__ == "__main__":
    sys.exit(main())
