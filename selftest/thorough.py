"""Thorough tier: the quick rules, then a robustness slice for this property.

The static rules themselves are exhaustive over the source (there is no sampling to deepen), so the thorough tier spends its
budget on the three ways a static verdict can be wrong:
  1. precision artefacts   - the joint fixpoint is re-run with doubled widening / inlining bounds (VERIF_DEEP=1) and under two other
                              hash seeds; obligations, discharged counts and known-finding sets must be identical;
  2. blindness             - every confirmed seeded change of this property (seeded/<P>-n/patch.diff) is applied to a scratch copy of
                              the analysed tree; the check must report a violation on it (exit 1);
  3. brittleness           - behaviour-preserving variants of the analysed tree (re-printed source, re-formatted, methods
                              re-ordered, every Python local and every template-local renamed, comments inserted) must give the
                              same verdict, the same known findings and the same obligation counts; the real refactorings kept
                              under refactors/ (extract helper, inverted branches, restructured macros, ...) must give the same
                              verdict and the same known findings (their instance counts may legitimately move).
A failure of the slice is an ANALYSIS-ERROR (exit 2), never a VIOLATION: it says the checker, not the repository, is at fault.
Everything runs on scratch copies under $TMPDIR that are removed immediately; nothing of /repo is executed.
"""
from __future__ import annotations

import concurrent.futures as cf
import json
import os
import re
import shutil
import subprocess
import sys
import tempfile
from pathlib import Path

V = Path(__file__).resolve().parent.parent
PKG = "openapi_python_client"
sys.path.insert(0, str(V / "selftest"))

VOLATILE = ("resolved_calls", "unresolved_calls", "python_rounds")


def signature(stdout: str, prop: str) -> dict:
    known = sorted(l.split(" :: ")[0] for l in stdout.splitlines() if l.startswith("KNOWN-FINDING:"))
    sig: dict = {"known": known}
    for line in stdout.splitlines():
        m = re.match(r"\[(C\d+)\] tier=\w+ obligations=(\d+) discharged=(\d+) known=(\d+) new_violations=(\d+) indexed=(\{.*\}) wall", line)
        if m and m.group(1) == prop:
            idx = json.loads(m.group(6))
            for k in VOLATILE:
                idx.pop(k, None)
            sig.update(obligations=int(m.group(2)), discharged=int(m.group(3)), new=int(m.group(5)), indexed=idx)
    return sig


def run_check(prop: str, root: Path, env_extra: dict[str, str] | None = None) -> tuple[int, dict, str]:
    env = dict(os.environ, VERIF_NO_EVIDENCE="1")
    if str(root).startswith(os.environ.get("TMPDIR", "/tmp")):
        env["VERIF_SCRATCH_DIR"] = str(root)
    env.pop("VERIF_TIER", None)
    env.update(env_extra or {})
    p = subprocess.run([str(V / "check"), prop, "--tier", "quick", "--root", str(root)], capture_output=True, text=True, cwd=str(V), env=env)
    return p.returncode, signature(p.stdout, prop), p.stdout


def scratch(root: Path, tag: str) -> Path:
    d = Path(tempfile.mkdtemp(prefix=f"thor_{tag}_", dir=os.environ.get("TMPDIR", "/tmp")))
    shutil.copytree(root / PKG, d / PKG, ignore=shutil.ignore_patterns("__pycache__"))
    return d


def job_env(prop: str, root: Path, name: str, env: dict[str, str]) -> dict:
    rc, sig, _ = run_check(prop, root, env)
    return {"kind": "precision", "name": name, "rc": rc, "sig": sig}


def job_variant(prop: str, root: Path, name: str) -> dict:
    import silent_variants as sv

    d = scratch(root, name)
    try:
        sv.VARIANTS[name](d)
        rc, sig, _ = run_check(prop, d)
        return {"kind": "variant", "name": name, "rc": rc, "sig": sig}
    finally:
        shutil.rmtree(d, ignore_errors=True)


def job_seed(prop: str, root: Path, seed: Path) -> dict:
    d = scratch(root, seed.name)
    try:
        p = subprocess.run(["git", "apply", "--include", f"{PKG}/*", str(seed / "patch.diff")], cwd=d, capture_output=True, text=True)
        if p.returncode != 0:
            return {"kind": "seed", "name": seed.name, "rc": None, "skipped": "patch does not apply to the analysed tree"}
        rc, sig, out = run_check(prop, d)
        rules = [l.strip() for l in out.splitlines() if l.startswith("  R")][:3]
        # expectation recorded when the seed was last evaluated (meta.json caught_by): a seed that breaks behaviour outside the clauses
        # this property's check claims is listed there without this property, and is not required to fire
        meta = json.loads((seed / "meta.json").read_text()) if (seed / "meta.json").exists() else {}
        expected = prop in [c.get("property") for c in meta.get("caught_by", [])]
        return {"kind": "seed", "name": seed.name, "rc": rc, "fired": rules, "expected_to_fire": expected}
    finally:
        shutil.rmtree(d, ignore_errors=True)


def job_refactor(prop: str, root: Path, ref: Path) -> dict:
    d = scratch(root, ref.name)
    try:
        p = subprocess.run(["git", "apply", "--include", f"{PKG}/*", str(ref / "patch.diff")], cwd=d, capture_output=True, text=True)
        if p.returncode != 0:
            return {"kind": "refactor", "name": ref.name, "rc": None, "skipped": "patch does not apply to the analysed tree"}
        rc, sig, out = run_check(prop, d)
        rep = [l.strip()[:160] for l in out.splitlines() if l.startswith("  R") or l.startswith("ANALYSIS-ERROR")][:3]
        meta = json.loads((ref / "meta.json").read_text()) if (ref / "meta.json").exists() else {}
        # refactorings on which this property's check is recorded as still differing (a limit stated in DESIGN.md) are run and
        # reported, but only a refactoring recorded as silent can turn the slice into an error (a regression)
        return {"kind": "refactor", "name": ref.name, "rc": rc, "known": sig.get("known"), "reports": rep,
                "expected_silent": prop not in meta.get("differs_for", [])}
    finally:
        shutil.rmtree(d, ignore_errors=True)


def run(prop: str, root: Path, base_rc: int) -> tuple[bool, dict]:
    """returns (ok, report). Only meaningful when the quick rules passed (base_rc == 0)."""
    import silent_variants as sv

    base_rc2, base, _ = run_check(prop, root)
    jobs = []
    with cf.ThreadPoolExecutor(max_workers=int(os.environ.get("VERIF_JOBS", "12"))) as ex:
        jobs.append(ex.submit(job_env, prop, root, "deep-bounds", {"VERIF_DEEP": "1"}))
        for hs in ("1", "2"):
            jobs.append(ex.submit(job_env, prop, root, f"hashseed-{hs}", {"PYTHONHASHSEED": hs}))
        for name in sv.VARIANTS:
            jobs.append(ex.submit(job_variant, prop, root, name))
        for seed in sorted((V / "seeded").glob(f"{prop}-*")):
            if (seed / "patch.diff").exists():
                jobs.append(ex.submit(job_seed, prop, root, seed))
        rdir = V / "refactors"
        for ref in sorted(rdir.iterdir()) if rdir.is_dir() else []:
            if (ref / "patch.diff").exists():
                jobs.append(ex.submit(job_refactor, prop, root, ref))
        results = [j.result() for j in jobs]
    problems = []
    if base_rc2 != base_rc:
        problems.append(f"re-run of the quick rules gave rc={base_rc2}, first run rc={base_rc}")
    for r in results:
        if r["kind"] in ("precision", "variant"):
            if r["rc"] != base_rc2 or r["sig"] != base:
                diff = {k: (base.get(k), r["sig"].get(k)) for k in set(base) | set(r["sig"]) if base.get(k) != r["sig"].get(k)}
                problems.append(f"{r['kind']} {r['name']}: rc={r['rc']} (expected {base_rc2}), differing: {json.dumps(diff, default=str)[:300]}")
        elif r["kind"] == "seed" and r.get("rc") is not None and r["rc"] != 1 and r.get("expected_to_fire", True):
            problems.append(f"seeded change {r['name']} is not reported (rc={r['rc']})")
        elif r["kind"] == "refactor" and r.get("rc") is not None and r.get("expected_silent", True) and (
                r["rc"] != base_rc2 or r.get("known") != base.get("known")):
            problems.append(f"behaviour-preserving refactoring {r['name']} changes the verdict (rc={r['rc']}): {r.get('reports')}")
    rep = {
        "base": base, "runs": len(results) + 1,
        "precision": [{"name": r["name"], "rc": r["rc"], "same_verdict": r["rc"] == base_rc2 and r["sig"] == base} for r in results if r["kind"] == "precision"],
        "silent_variants": [{"name": r["name"], "rc": r["rc"], "same_verdict": r["rc"] == base_rc2 and r["sig"] == base} for r in results if r["kind"] == "variant"],
        "seeded_changes": [{k: v for k, v in r.items() if k not in ("kind", "sig")} for r in results if r["kind"] == "seed"],
        "refactorings": [{"name": r["name"], "rc": r.get("rc"), "same_verdict": r.get("rc") == base_rc2 and r.get("known") == base.get("known"),
                          "expected_silent": r.get("expected_silent", True), **({"skipped": r["skipped"]} if r.get("skipped") else {})} for r in results if r["kind"] == "refactor"],
        "problems": problems,
    }
    return not problems, rep
